"""Bijection between the abstract values of spec/CincoValues.tla (as JSON) and Python values.

    {"t":"none"} {"t":"bool","b":true} {"t":"int","i":5} {"t":"float","h":3} (=1.5)
    {"t":"fspec","k":"inf"|"ninf"|"nan"} {"t":"str","s":["a","B"]} {"t":"bytes","y":[0,255]}
    {"t":"list","l":[...]} {"t":"tuple","l":[...]} {"t":"dict","kv":[[k,v],...]} {"t":"obj","n":"set"}

`root` is the scratch directory that the character "$" stands for in file names.
"""
import math


class Unrepresentable(Exception):
    """A Python value with no counterpart in the abstract universe."""


def seq(x):
    # ToJson renders the empty sequence/record ambiguously; JsonDeserialize gives [] or {}
    if x in ({}, None):
        return []
    return x


# characters the specification writes by name (TLA+ source is ASCII)
NAMED = {"&szlig;": "\u00df", "&Idot;": "\u0130", "&cdot;": "\u0307", "&napos;": "\u0149", "&apos2;": "\u02bc"}
UNNAMED = {c: n for n, c in NAMED.items()}


def to_py(v, root=None):
    t = v["t"]
    if t == "none":
        return None
    if t == "bool":
        return bool(v["b"])
    if t == "int":
        return int(v["i"])
    if t == "float":
        return v["h"] / 2.0
    if t == "fspec":
        return {"inf": math.inf, "ninf": -math.inf, "nan": math.nan}[v["k"]]
    if t == "str":
        s = "".join(NAMED.get(c, c) for c in seq(v["s"]))
        if root is not None:
            s = s.replace("$", root)
        return s
    if t == "bytes":
        return bytes(seq(v["y"]))
    if t == "list":
        return [to_py(x, root) for x in seq(v["l"])]
    if t == "tuple":
        return tuple(to_py(x, root) for x in seq(v["l"]))
    if t == "dict":
        return {_hashable(to_py(k, root)): to_py(x, root) for k, x in seq(v["kv"])}
    if t == "obj":
        return {"set": {1, 2}, "object": object(), "complex": 1j, "bytearray": bytearray(b"ab")}[v["n"]]
    raise ValueError("unknown tag %r" % (t,))


def _hashable(k):
    if isinstance(k, list):
        return tuple(k)
    return k


def to_abs(x, root=None):
    if x is None:
        return {"t": "none"}
    if isinstance(x, bool):
        return {"t": "bool", "b": x}
    if isinstance(x, int):
        if abs(x) >= 2**31:
            raise Unrepresentable("int out of TLC range: %r" % (x,))
        return {"t": "int", "i": x}
    if isinstance(x, float):
        if math.isnan(x):
            return {"t": "fspec", "k": "nan"}
        if math.isinf(x):
            return {"t": "fspec", "k": "inf" if x > 0 else "ninf"}
        h = x * 2
        if h != int(h) or abs(h) >= 2**31:
            raise Unrepresentable("float is not a half-integer: %r" % (x,))
        return {"t": "float", "h": int(h)}
    if isinstance(x, str):
        if root is not None and root in x:
            x = x.replace(root, "$")
        return {"t": "str", "s": [UNNAMED.get(c, c) for c in x]}
    if isinstance(x, bytearray):
        # (equal to the bytes it holds, but a different - mutable - type: never what a field stores)
        return {"t": "obj", "n": "bytearray"}
    if isinstance(x, bytes):
        return {"t": "bytes", "y": list(x)}
    if isinstance(x, tuple) and not hasattr(x, "_fields"):
        return {"t": "tuple", "l": [to_abs(i, root) for i in x]}
    if isinstance(x, list):
        return {"t": "list", "l": [to_abs(i, root) for i in x]}
    if isinstance(x, dict):
        return {"t": "dict", "kv": [[to_abs(k, root), to_abs(v, root)] for k, v in x.items()]}
    if isinstance(x, set):
        return {"t": "obj", "n": "set"}
    raise Unrepresentable("no abstract form for %r" % (type(x),))


def norm(v):
    """Normal form of an abstract value coming back from TLC's JSON (empty seq as [])."""
    t = v["t"]
    if t == "str":
        return {"t": "str", "s": list(seq(v["s"]))}
    if t == "bytes":
        return {"t": "bytes", "y": list(seq(v["y"]))}
    if t in ("list", "tuple"):
        return {"t": t, "l": [norm(x) for x in seq(v["l"])]}
    if t == "dict":
        return {"t": "dict", "kv": [[norm(k), norm(x)] for k, x in seq(v["kv"])]}
    if t in ("enc", "digest"):
        out = dict(v)
        out["pt"] = norm(v["pt"])
        return out
    return dict(v)
