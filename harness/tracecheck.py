"""code -> spec: validate traces recorded from the real library against a trace specification.

A trace is  {"init": <state>, "events": [ {op, <args>, out, ..., <projected state>} ... ]}.
A batch is written to one JSON file, read once by the trace specification through
IOEnv.TRACE_FILE, and checked in a single TLC run (tid ranges over the batch).  The trace
specification prints one line per consumed event:

    <<"TRACE", "{"t": tid, "l": index, "bo": [...], "bi": [...], "m": {...}}">>

  bo  names of logged observations that differ from what the specification's action produces
  bi  names of property predicates (state invariants evaluated on the new state, action
      properties evaluated on the step) that are false
  m   (only when bo is non-empty) what the specification expected

A trace is accepted iff every event was consumed with bo = bi = {}.  An event that was not
consumed at all means the action was not enabled in the specification.
"""
import json
import os

from . import tlc


class TraceVerdict:
    def __init__(self, tid, trace):
        self.tid = tid
        self.trace = trace
        self.consumed = 0
        self.bad_obs = None
        self.bad_inv = None
        self.model = None
        self.at = None
        self.truncated = False

    @property
    def accepted(self):
        return (
            self.bad_obs is None
            and self.bad_inv is None
            and self.consumed == len(self.trace["events"])
        )

    def describe(self):
        if self.accepted:
            return "accepted"
        if self.bad_inv:
            return "property predicate(s) %s false at event %d" % (self.bad_inv, self.at)
        if self.bad_obs:
            return "event %d: logged %s differ(s) from the specification; spec expected %s" % (
                self.at,
                self.bad_obs,
                json.dumps(self.model, sort_keys=True),
            )
        return "event %d (%s): action not enabled in the specification" % (
            self.consumed + 1,
            self.trace["events"][self.consumed].get("op") if self.consumed < len(self.trace["events"]) else "?",
        )

    def to_json(self):
        k = self.at if self.at is not None else self.consumed + 1
        return {
            "kind": "trace-rejected",
            "why": self.describe(),
            "init": self.trace["init"],
            "events_up_to_failure": self.trace["events"][:k],
            "bad_observations": self.bad_obs,
            "false_predicates": self.bad_inv,
            "spec_expected": self.model,
        }


def _strip_none(x):
    if isinstance(x, dict):
        return {k: _strip_none(v) for k, v in x.items() if v is not None}
    if isinstance(x, list):
        return [_strip_none(v) for v in x]
    return x


def fold(vs, records, wanted=None):
    """Fold TRACE records into verdicts.  Several records may exist for one (trace, event): the
    specification may leave a choice (several successors) - the event passes if one of them
    matches the log with every predicate true; records without "m"/"bo" content from the state
    CONSTRAINT carry state predicates only."""
    per = {}
    for rec in records:
        per.setdefault((rec["t"], rec["l"]), []).append(rec)
    for v in vs:
        tno = v.tid - vs[0].tid + 1
        n = len(v.trace["events"])
        for l in range(1, n + 1):
            recs = per.get((tno, l))
            if not recs:
                break
            if any(r.get("skip") for r in recs):
                v.truncated = True
                v.trace = dict(v.trace, events=v.trace["events"][: l - 1])
                break
            # records of the state CONSTRAINT (st) carry state predicates only; the others are
            # one per successor the specification generated for this event
            succ = [r for r in recs if not r.get("st")]
            state = [r for r in recs if r.get("st")]
            matched = [r for r in succ if not (r.get("bo") or [])]

            def preds(rs):
                return sorted({x for r in rs for x in (r.get("bi") or []) if wanted is None or x in wanted})

            if matched:
                clean = [r for r in matched if not preds([r])]
                bad_state = preds(state) if len(succ) == 1 else []
                if clean and not bad_state:
                    v.consumed = l
                    continue
                v.bad_inv = bad_state or preds(matched)
                v.at = l
            elif succ:
                r0 = succ[0]
                v.bad_obs = list(r0.get("bo") or []) or None
                v.model = r0.get("m")
                v.at = l
            else:
                # only a state record: the action constraint was not evaluated (should not happen)
                v.consumed = l
                continue
            break


def validate(module, cfg, traces, batch=1500, timeout=3600, extra_env=None, wanted=None):
    """Validate all traces; returns (verdicts, tlc_stats)."""
    verdicts = []
    stats = {"states": 0, "transitions": 0, "runs": 0, "wall": 0.0}
    for start in range(0, len(traces), batch):
        chunk = traces[start : start + batch]
        d = tlc.scratch("cinco-trace-")
        path = os.path.join(d, "traces.json")
        with open(path, "w") as fp:
            json.dump(_strip_none(chunk), fp)  # (TLC's JSON reader rejects null)
        env = {"TRACE_FILE": path}
        if extra_env:
            env.update(extra_env)
        res = tlc.run(module, cfg, workers=1, env=env, timeout=timeout, coverage=False)
        if res.violation is not None:
            raise tlc.TLCError(
                "trace specification run reported %s (trace specs carry no INVARIANT lines): %s"
                % (res.violation, res.cmd)
            )
        stats["states"] += res.distinct
        stats["transitions"] += res.generated
        stats["runs"] += 1
        stats["wall"] += res.wall
        vs = [TraceVerdict(start + i, t) for i, t in enumerate(chunk)]
        fold(vs, res.printed.get("TRACE", []), wanted)
        verdicts.extend(vs)
        import shutil

        shutil.rmtree(d, ignore_errors=True)
    return verdicts, stats
