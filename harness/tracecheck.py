"""code -> spec: validate traces recorded from the real library against a trace specification.

A trace is  {"init": <state>, "events": [ {op, <args>, out, ..., <projected state>} ... ]}.
A batch is written to one JSON file, read once by the trace specification through
IOEnv.TRACE_FILE, and checked in a single TLC run (tid ranges over the batch).  The trace
specification prints one line per consumed event:

    <<"TRACE", "{"t": tid, "l": index, "bo": [...], "bi": [...], "m": {...}}">>

  bo  names of logged observations that differ from what the specification's action produces
  bi  names of property predicates (state invariants evaluated on the new state, action
      properties evaluated on the step) that are false
  m   (only when bo is non-empty) what the specification expected

A trace is accepted iff every event was consumed with bo = bi = {}.  An event that was not
consumed at all means the action was not enabled in the specification.
"""
import json
import os

from . import tlc


class TraceVerdict:
    def __init__(self, tid, trace):
        self.tid = tid
        self.trace = trace
        self.consumed = 0
        self.bad_obs = None
        self.bad_inv = None
        self.model = None
        self.at = None
        self.truncated = False

    @property
    def accepted(self):
        return (
            self.bad_obs is None
            and self.bad_inv is None
            and self.consumed == len(self.trace["events"])
        )

    def describe(self):
        if self.accepted:
            return "accepted"
        if self.bad_inv:
            return "property predicate(s) %s false at event %d" % (self.bad_inv, self.at)
        if self.bad_obs:
            return "event %d: logged %s differ(s) from the specification; spec expected %s" % (
                self.at,
                self.bad_obs,
                json.dumps(self.model, sort_keys=True),
            )
        return "event %d (%s): action not enabled in the specification" % (
            self.consumed + 1,
            self.trace["events"][self.consumed].get("op") if self.consumed < len(self.trace["events"]) else "?",
        )

    def to_json(self):
        k = self.at if self.at is not None else self.consumed + 1
        return {
            "kind": "trace-rejected",
            "why": self.describe(),
            "init": self.trace["init"],
            "events_up_to_failure": self.trace["events"][:k],
            "bad_observations": self.bad_obs,
            "false_predicates": self.bad_inv,
            "spec_expected": self.model,
        }


def _strip_none(x):
    if isinstance(x, dict):
        return {k: _strip_none(v) for k, v in x.items() if v is not None}
    if isinstance(x, list):
        return [_strip_none(v) for v in x]
    return x


def validate(module, cfg, traces, batch=1500, timeout=3600, extra_env=None, wanted=None):
    """Validate all traces; returns (verdicts, tlc_stats)."""
    verdicts = []
    stats = {"states": 0, "transitions": 0, "runs": 0, "wall": 0.0}
    for start in range(0, len(traces), batch):
        chunk = traces[start : start + batch]
        d = tlc.scratch("cinco-trace-")
        path = os.path.join(d, "traces.json")
        with open(path, "w") as fp:
            json.dump(_strip_none(chunk), fp)  # (TLC's JSON reader rejects null)
        env = {"TRACE_FILE": path}
        if extra_env:
            env.update(extra_env)
        res = tlc.run(module, cfg, workers=1, env=env, timeout=timeout, coverage=False)
        if res.violation is not None:
            raise tlc.TLCError(
                "trace specification run reported %s (trace specs carry no INVARIANT lines): %s"
                % (res.violation, res.cmd)
            )
        stats["states"] += res.distinct
        stats["transitions"] += res.generated
        stats["runs"] += 1
        stats["wall"] += res.wall
        vs = [TraceVerdict(start + i, t) for i, t in enumerate(chunk)]
        for rec in res.printed.get("TRACE", []):
            v = vs[rec["t"] - 1]
            if v.bad_obs or v.bad_inv or v.truncated:
                continue
            if rec.get("skip"):
                # the specification does not describe this input: the rest of the trace is not judged
                v.truncated = True
                v.consumed = min(v.consumed, rec["l"] - 1)
                v.trace = dict(v.trace, events=v.trace["events"][: rec["l"] - 1])
                continue
            bo = rec.get("bo") or []
            bi = [x for x in (rec.get("bi") or []) if wanted is None or x in wanted]
            if bo or bi:
                v.bad_obs = list(bo) or None
                v.bad_inv = list(bi) or None
                v.model = rec.get("m")
                v.at = rec["l"]
            else:
                v.consumed = max(v.consumed, rec["l"])
        verdicts.extend(vs)
        import shutil

        shutil.rmtree(d, ignore_errors=True)
    return verdicts, stats
